"""C19 — see DESIGN.md section 4 ("the repository model") and lean/XvcRepo/XvcRepo/Props/C19.lean.
Proof: Lean theorems about the executable repository model.  Tie: the model driver is compared with the rebuilt xvc
binary after every command of generated histories.  Oracle: model-independent, lib/repo_check.py.

Second stream (multi-source copy / move, lean/XvcRepo/XvcRepo/CopyMany.lean + Props/C19Many.lean): `many_*` below."""
import os, re, json, random, hashlib, collections, subprocess
from concurrent.futures import ThreadPoolExecutor
import hashref
import common
import repo_harness as rh
import repo_check as rc
from repo_check import W, T, CI, RC

ORACLES = [rc.o7_copy_move]
RESTORE = None


def chain_histories(seed, n):
    """Copies of copies and moves of copies: everything `copy`/`move` must carry over from the source (digest, method,
    text/binary mode, metadata) is needed again when the destination becomes a source.  Sources are committed with an
    explicit text/binary mode that differs from auto-detection, with every method, present / absent / re-checked."""
    rng = random.Random(f'c19-chains-{seed}')
    out = []
    for i in range(n):
        e = rng.choice(['txt', 'bin', ''])
        nm = lambda s: s + ('.' + e if e else '')
        names = [nm('f0'), nm('d/f1'), nm('f2'), nm('d/e/f3'), nm('f4')]
        text = rng.random() < 0.7
        body = (bytes(f'line one {i}\nline two\r\nline three\n', 'ascii') if text else bytes(f'bin{i}', 'ascii') + b'\x00\x01\n\xff')
        tob = rng.choice(['binary', 'text', 'auto', None])
        cfg = {'algo': rng.choice([0, 0, 1, 2, 3]), 'method': rng.choice(['copy', 'copy', 'symlink', 'reflink']), 'tob': 'auto'}
        h = [W(names[0], body), T([names[0]], tob=tob, method=rng.choice([None, None, 'symlink', 'copy']))]
        cur = names[0]
        for k in range(1, rng.randint(3, 5)):
            op = rng.choice(['copy', 'copy', 'move'])
            m = rng.choice([None, None, 'copy', 'symlink'])
            if rng.random() < 0.2:
                h.append({'op': 'delete', 'path': cur})                      # the source content is not in the workspace
            if op == 'copy':
                h.append({'op': 'copy', 'src': cur, 'dst': names[k], 'method': m, 'no_recheck': rng.random() < 0.15})
            else:
                h.append({'op': 'move', 'src': cur, 'dst': names[k], 'method': m})
            if rng.random() < 0.3:
                h.append(RC([names[k]], force=rng.random() < 0.5))
            cur = names[k]
        h.append(RC([cur], method='copy', force=True))
        out.append((f'chain-{i}', cfg, h))
    return out


# ====================================================================================================================
# multi-source copy / move
#
# One `xvc file copy|move <SOURCE> <DEST>` where SOURCE is a directory (`d/`: the files directly in it; `d`: everything
# below it), a glob, a character class, or a single file, and DEST is a directory (`out/`) or a file.  Histories are
# generated ADAPTIVELY: the next command is drawn from what is observed in the real repository (which paths are recorded,
# present, modified), so the regions of the open findings are excluded on the facts and not on a prediction:
#   K2  destinations keep the source's extension (automatic under a directory destination),
#   K9  no `move` of a source that is absent from the workspace with method copy -> copy,
#   K1  no two contents equal after CR/LF stripping,
#   collisions: `--name-only` is dropped when two selected sources have the same file name (replay MANY_REPLAYS),
#   overlap: no destination is itself a candidate source of the same command (order dependent in the code).
# After every command the abstraction of the real repository is compared with the Lean driver (`copym` / `movem`), and
# `o7m_copy_move_many` states C19 for every selected source from the observations alone.
# ====================================================================================================================

MANY_OPS = ('copym', 'movem')
FIX_MARKER = 'Multiple sources are to be copied to'       # error text of patches/F28-copy-name-only-collision.patch (6bdf9b9d)


def collisions_refused():
    """which variant of `get_copy_source_dest_store` the tree under test has (parameter `collisionsRefused` of
    `St.copyMany`), read from the source text"""
    try:
        return FIX_MARKER in open(os.path.join(common.REPO, 'file', 'src', 'copy', 'mod.rs')).read()
    except OSError:
        return False


def glob_regex(g):
    """the glob syntax of the `fast-glob` crate as far as the generator uses it: `**` crosses `/`, `*` and `?` do not,
    `[..]` is a character class; everything else is literal"""
    out, i = [], 0
    while i < len(g):
        if g.startswith('**/', i):
            out.append('(?:.*/)?'); i += 3
        elif g.startswith('**', i):
            out.append('.*'); i += 2
        elif g[i] == '*':
            out.append('[^/]*'); i += 1
        elif g[i] == '?':
            out.append('[^/]'); i += 1
        elif g[i] == '[' and ']' in g[i:]:
            j = g.index(']', i)
            out.append('[' + g[i + 1:j] + ']'); i = j + 1
        else:
            out.append(re.escape(g[i])); i += 1
    return re.compile(''.join(out) + r'\Z')


def candidates(source, universe, recorded):
    """paths of `universe` the SOURCE argument designates (`get_source_path_metadata` + `filter_paths_by_globs` +
    `build_glob_matcher`): `d/` -> glob `d/*`; a star-less name below which a path is recorded (or that is a directory on
    disk, below which nothing is recorded then) -> `name/**`; anything else is a glob / a literal path"""
    if source.endswith('/'):
        g = source + '*'
    elif '*' not in source and any(p.startswith(source + '/') for p in recorded):
        g = source + '/**'
    else:
        g = source
    rx = glob_regex(g)
    return sorted(p for p in universe if rx.match(p))


def many_pairs(c, obs):
    """[(source, destination)] for the candidates that are recorded as files in `obs`; destination = DEST/<source path>,
    DEST/<file name> with --name-only, or DEST itself when it is not a directory"""
    isdir = c['dest'].endswith('/')

    def dst(p):
        if not isdir:
            return c['dest']
        return c['dest'] + (p.rsplit('/', 1)[-1] if c.get('name_only') else p)
    return [(p, dst(p)) for p in c['cands'] if p in obs.recs], isdir


def many_model_line(c, fixed):
    o = lambda k: c.get(k) or '-'
    b = lambda k: '1' if c.get(k) else '0'
    if c['op'] == 'copym':
        return '\t'.join(['copym', o('method'), b('no_recheck'), b('force'), b('name_only'), '1' if fixed else '0', c['dest']] + c['cands'])
    if c['op'] == 'movem':
        return '\t'.join(['movem', o('method'), b('no_recheck'), c['dest']] + c['cands'])
    return rh.model_line(c)


def many_store_line(c):
    """history lines kept in replay files: the model line plus the SOURCE argument as typed"""
    if c['op'] in MANY_OPS:
        return json.dumps({k: c.get(k) for k in ('op', 'source', 'dest', 'method', 'no_recheck', 'force', 'name_only', 'cands')})
    return rh.model_line(c)


def many_parse_line(l):
    if l.startswith('{'):
        return json.loads(l)
    return rc.parse_model_line(l)


def many_args(c):
    a = ['file', 'copy' if c['op'] == 'copym' else 'move']
    if c.get('method'): a += ['--recheck-method', c['method']]
    if c.get('no_recheck'): a.append('--no-recheck')
    if c.get('force') and c['op'] == 'copym': a.append('--force')
    if c.get('name_only') and c['op'] == 'copym': a.append('--name-only')
    return a + [c['source'], c['dest']]


def many_show(c):
    if c['op'] in MANY_OPS:
        return 'xvc ' + ' '.join(f"'{x}'" if '*' in x or '[' in x else x for x in many_args(c))
    return rh.show_cmd(c)


def path_dups(sb):
    """paths recorded by more than one file entity (Obs.recs is keyed by path and cannot show them)"""
    paths, metas = sb.store_map('xvc-path'), sb.store_map('xvc-metadata')
    n = collections.Counter(p for e, p in paths.items() if (metas.get(e) or {}).get('file_type') == 'File')
    return sorted(p for p, k in n.items() if k > 1)


class ManyRunner(rh.Runner):
    """Runner that knows the two multi-source commands and can draw the next commands from the observed state"""

    def exec_cmd(self, sb, cfg, c, pre=None):
        if c['op'] in MANY_OPS:
            return sb.x(*(self.cfg_args(cfg) + many_args(c)))
        return super().exec_cmd(sb, cfg, c, pre)

    def run_adaptive(self, name, cfg, next_cmds, fixed_history=None):
        """`next_cmds(obs, k)` returns the next batch of commands (or None to stop); with `fixed_history` that list is
        executed instead.  Returns (history as executed, steps)."""
        sb = self.new_sandbox(name)
        table = rh.Table()
        steps, hist = [], []
        stamps = {'k': 0, 'mine': set()}
        pre = rh.Obs(sb)
        dups = path_dups(sb)
        k = 0
        queue = list(fixed_history) if fixed_history is not None else []
        while True:
            if not queue:
                batch = next_cmds(pre, k) if fixed_history is None else None
                k += 1
                if not batch:
                    break
                queue = list(batch)
            c = queue.pop(0)
            if c['op'] == 'write':
                table.add(c['bytes'])
            rcode, out, err = self.exec_cmd(sb, cfg, c, pre)
            self.restamp(sb, stamps)
            post = rh.Obs(sb)
            ndups = path_dups(sb)
            steps.append({'i': len(hist), 'cmd': c, 'rc': rcode, 'out': out[-400:], 'err': err[-600:], 'pre': pre, 'post': post,
                          'abs': rh.abstraction(post, table), 'dups_pre': dups, 'dups_post': ndups})
            hist.append(c)
            pre, dups = post, ndups
            if rcode not in (0, 1):
                break
        sb.cleanup()
        return hist, steps

    def many_model_answers(self, items, fixed):
        """items: [(cfg, history)] -> [[answer line per command]]"""
        lines = []
        for cfg, h in items:
            lines.append('\t'.join(['cfg', str(cfg['algo']), cfg['method'], cfg['tob']]))
            lines += [many_model_line(c, fixed) for c in h]
            lines.append('reset')
        p = subprocess.run([self.model_bin], input='\n'.join(lines) + '\n', stdout=subprocess.PIPE, text=True, timeout=3000)
        out = p.stdout.split('\n')
        res, k = [], 0
        for cfg, h in items:
            k += 1
            res.append(out[k:k + len(h)]); k += len(h) + 1
        return res


# ------------------------------------------------------------------------------------------------ generator

MANY_DIRS = ['d', 'd/e', 'd2', 'k']
MANY_NAMES = ['a', 'b', 'c', 'n']


class ManyGen:
    """one adaptive history: a repository with nested directories, equal file names in different directories, two
    extensions, tracked / untracked files, then 3..5 multi-source commands each preceded by perturbations"""

    def __init__(self, seed, idx, count):
        self.rng = random.Random(seed)
        self.idx, self.count = idx, count
        rng = self.rng
        self.ext = rng.choice(['txt', 'txt', 'bin', 'dat', ''])
        self.ext2 = rng.choice([e for e in ['txt', 'bin', 'csv'] if e != self.ext])
        self.cfg = {'algo': rng.choice([0, 0, 0, 1, 2, 3]), 'method': rng.choice(['copy', 'copy', 'copy', 'symlink', 'hardlink', 'reflink']), 'tob': 'auto'}
        self.universe = set()
        self.ncmds = rng.randint(3, 5)
        self.serial = 0
        self.done = False
        self.object_removed = False

    def nm(self, d, n, e=None):
        e = self.ext if e is None else e
        return (d + '/' if d else '') + n + ('.' + e if e else '')

    def content(self, tag):
        self.serial += 1
        if self.rng.random() < 0.3:
            return bytes(f'{tag}#{self.idx}.{self.serial}', 'utf-8') + b'\x00\x01\n\r\xff'           # binary
        return bytes(f'{tag} #{self.idx}.{self.serial}\nsecond line\n', 'utf-8')                       # text; unique after stripping

    def count_(self, key):
        self.count(key)

    # ---- first batch: the repository
    def setup(self):
        rng = self.rng
        files = []
        for d in MANY_DIRS:
            for n in rng.sample(MANY_NAMES, rng.randint(1, 3)):
                files.append(self.nm(d, n))
        if rng.random() < 0.6:
            files.append(self.nm('d', 'x', self.ext2))
        if rng.random() < 0.4:
            files.append(self.nm('d/e', 'y', self.ext2))
        if rng.random() < 0.5:
            files.append(self.nm('', 'top'))
        files = sorted(set(files))
        cmds = [W(p, self.content(p)) for p in files]
        self.universe |= set(files)
        untracked = set(rng.sample(files, rng.randint(0, 2)))
        tracked = [p for p in files if p not in untracked]
        rng.shuffle(tracked)
        # two track commands with different methods: the selected sources of one command carry different methods
        cut = rng.randint(1, len(tracked)) if tracked else 0
        m1, m2 = rng.choice([None, None, 'symlink', 'hardlink', 'copy']), rng.choice([None, 'symlink', 'copy', 'reflink'])
        if tracked[:cut]: cmds.append(T(sorted(tracked[:cut]), method=m1, no_parallel=rng.random() < 0.5))
        if tracked[cut:]: cmds.append(T(sorted(tracked[cut:]), method=m2, no_parallel=rng.random() < 0.5))
        if rng.random() < 0.25 and tracked:
            # a second path with exactly the bytes of a tracked one (one cache object, two records); own track command
            src = rng.choice(tracked)
            dup = self.nm('k', 'dup', rh.ext_of(src))
            b = next(c['bytes'] for c in cmds if c['op'] == 'write' and c['path'] == src)
            cmds += [W(dup, b), T([dup], no_parallel=True)]
            self.universe.add(dup)
            self.count_('many:setup:duplicate-content')
        return cmds

    # ---- later batches
    def source_arg(self, obs):
        rng = self.rng
        tracked = sorted(obs.recs)
        below = collections.Counter()                       # directory -> number of recorded files below it
        for p in tracked:
            parts = p.split('/')[:-1]
            for j in range(1, len(parts) + 1):
                below['/'.join(parts[:j])] += 1
        dirs = sorted(below) or ['d']
        rich = [d for d in dirs if below[d] >= 2]
        kind = rng.choice(['dir/'] * 3 + ['dir'] * 3 + ['glob-ext'] * 2 + ['glob-rec'] * 2 + ['class'] * 2 + ['file', 'nothing'])
        d = rng.choice(rich) if rich and rng.random() < 0.8 else rng.choice(dirs)
        here = [p for p in tracked if p.rsplit('/', 1)[0] == d]
        e = rh.ext_of(rng.choice(here)) if here and rng.random() < 0.8 else rng.choice([self.ext, self.ext2])
        dot = ('.' + e) if e else ''
        stem = lambda p: p.rsplit('/', 1)[-1].split('.')[0]
        if kind == 'dir/': return kind, d + '/'
        if kind == 'dir': return kind, d
        if kind == 'glob-ext': return kind, (f'{d}/*{dot}' if dot else f'{d}/*')
        if kind == 'glob-rec':
            name = stem(rng.choice(tracked)) if tracked else 'a'
            return kind, rng.choice([f'{d}/**', f'**/*{dot}' if dot else '**', f'**/{name}{dot}', f'*/{name}{dot}'])
        if kind == 'class':
            ns = sorted({stem(p)[0] for p in here} | set(rng.sample(MANY_NAMES, 1)))
            return kind, f'{d}/[{"".join(ns[:3])}]{dot}'
        if kind == 'file' and tracked: return kind, rng.choice(tracked)
        if kind == 'file': return kind, rng.choice(sorted(self.universe))
        return 'nothing', rng.choice(['nosuchdir/', 'nosuch/*' + dot, 'zz' + dot])

    def batch(self, obs, k):
        rng = self.rng
        if k == 0:
            return self.setup()
        if self.done:
            return None
        if k > self.ncmds:
            # last: everything that is recorded and absent is restored (destinations of --no-recheck, sources of K-free moves)
            self.done = True
            absent = sorted(p for p in obs.recs if p not in obs.ws)
            return [RC(absent[:8])] if absent else None
        op = rng.choice(['copym', 'copym', 'copym', 'movem', 'movem'])
        skind, source = self.source_arg(obs)
        cands = candidates(source, self.universe, obs.recs)
        sel = [p for p in cands if p in obs.recs]
        c = {'op': op, 'source': source, 'cands': cands, 'method': rng.choice([None, None, None, 'copy', 'symlink', 'hardlink', 'reflink']),
             'no_recheck': rng.random() < 0.15, 'force': op == 'copym' and rng.random() < 0.2,
             'name_only': op == 'copym' and rng.random() < 0.4}
        # destination
        dkind = rng.choice(['new-dir'] * 9 + ['nested-new-dir'] * 4 + ['existing-dir'] * 4 + ['file'] * 2 + ['tracked-file-as-dir'])
        if len(sel) == 1 and rng.random() < 0.3: dkind = 'file'
        if not sel and dkind == 'file' and rng.random() < 0.85: dkind = 'new-dir'      # no source + file destination panics (`unwrap`)
        fresh = f'o{k}'
        if dkind == 'new-dir': c['dest'] = fresh + '/'
        elif dkind == 'nested-new-dir': c['dest'] = f'{fresh}/sub/'
        elif dkind == 'existing-dir': c['dest'] = rng.choice(sorted({p.split('/')[0] for p in self.universe if '/' in p})) + '/'
        elif dkind == 'tracked-file-as-dir' and obs.recs: c['dest'] = rng.choice(sorted(obs.recs)) + '/'
        else:
            dkind = 'file'
            e = rh.ext_of(sel[0]) if sel else self.ext                     # K2: same extension
            c['dest'] = rng.choice([fresh, f'{fresh}/g']) + ('.' + e if e else '')
            if sel and rng.random() < 0.25:
                same = [p for p in sorted(obs.recs) if rh.ext_of(p) == e and p not in cands]
                if same: c['dest'], dkind = rng.choice(same), 'file-tracked'
        pairs, isdir = many_pairs(c, obs)
        # collisions (finding; replayed by MANY_REPLAYS, never generated)
        if c['name_only'] and len({d for _, d in pairs}) < len(pairs):
            c['name_only'] = False
            self.count_('many:excluded:name-only-collision')
            pairs, isdir = many_pairs(c, obs)
        # overlap: a destination that is itself a candidate source
        alld = {(c['dest'] + (p.rsplit('/', 1)[-1] if c['name_only'] else p)) if isdir else c['dest'] for p in cands}
        if alld & set(cands):
            c['dest'], dkind = fresh + '/', 'new-dir'
            if c['name_only'] and len({p.rsplit('/', 1)[-1] for p in sel}) < len(sel): c['name_only'] = False
            self.count_('many:excluded:destination-is-a-source')
            pairs, isdir = many_pairs(c, obs)
        pre = []
        has_obj = lambda p: bool(obs.recs[p]['cur']) and rc.rec_addr(obs.recs[p], p) in obs.cache
        # perturbations of the selected sources
        mod, absent_now = [], []
        if sel and rng.random() < 0.15:
            p = rng.choice(sel)
            pre.append(W(p, self.content('edited ' + p))); mod.append(p)
        if sel and rng.random() < 0.35:
            for p in rng.sample(sel, rng.randint(1, max(1, len(sel) // 2))):
                if p in obs.ws and p not in mod and has_obj(p):
                    pre.append({'op': 'delete', 'path': p}); absent_now.append(p)
        absent = [p for p in sel if p not in obs.ws or p in absent_now]
        if op == 'movem' and any(not has_obj(p) for p in absent):
            c['no_recheck'] = True                  # nothing to recheck from (the recheck thread would panic)
        if op == 'movem' and absent:
            # K9: absent source, recorded method copy, destination method copy
            if any(obs.recs[p]['method'] == 'copy' and c['method'] in (None, 'copy') for p in absent):
                c['method'] = rng.choice(['symlink', 'hardlink'])
                self.count_('many:excluded:K9-absent-source-copy-to-copy')
        if sel and rng.random() < 0.08 and not self.object_removed:
            # the object of one source leaves the cache: `move` must not delete that source's file (F18, over all pairs);
            # `copy` then only writes records
            p = rng.choice(sel)
            if p in obs.ws and p not in mod and p not in absent_now and obs.ws[p]['kind'] == 'file' and not obs.ws[p].get('addr'):
                pre.append({'op': 'remove', 'targets': [p], 'force': True})
                self.object_removed = True
                self.count_('many:perturb:object-removed')
        if self.object_removed and op == 'copym':
            c['no_recheck'] = True
        # destinations that exist already
        if pairs and rng.random() < 0.4:
            for s_, d_ in rng.sample(pairs, rng.randint(1, min(2, len(pairs)))):
                if d_ in obs.recs or d_ in obs.ws or d_ in cands or any(q.get('path') == d_ for q in pre):
                    continue
                if candidates(source, [d_], set(obs.recs) | {d_}):
                    continue                                                    # the occupant would itself be selected (overlap)
                if any(d_.startswith(p + '/') or p.startswith(d_ + '/') for p in list(obs.ws) + list(obs.recs) + [q.get('path', '') for q in pre]):
                    continue                                                    # would need a directory where a file is
                # destination STATE: untracked file | tracked and present | tracked and ABSENT from the workspace (tracked, then
                # deleted by the user - what `copy --no-recheck` or a fresh clone before `recheck` also leave): "tracked" is a
                # fact of the path store, not of the workspace (seeded change C19-6: one lstat of the workspace path)
                pre.append(W(d_, self.content('occupant ' + d_)))
                f = rng.random()
                if f < 0.35:
                    pre.append(T([d_], no_parallel=True))
                    self.count_('many:perturb:destination-tracked')
                elif f < 0.7:
                    pre += [T([d_], no_parallel=True), {'op': 'delete', 'path': d_}]
                    self.count_('many:perturb:destination-tracked-absent')
                else:
                    self.count_('many:perturb:destination-untracked-file')
        for s_, d_ in pairs:
            self.universe.add(d_)
        for q in pre:
            if q.get('path'): self.universe.add(q['path'])
        self.count_(f'many:op:{op}'); self.count_(f'many:source:{skind}'); self.count_(f'many:dest:{dkind}')
        self.count_(f'many:selected:{min(len(sel), 4)}{"+" if len(sel) >= 4 else ""}')
        for kk in ('method', 'no_recheck', 'force', 'name_only'):
            if c.get(kk): self.count_(f'many:opt:{kk}' + (f'={c[kk]}' if isinstance(c[kk], str) else ''))
        if mod: self.count_('many:perturb:source-modified')
        if absent: self.count_(f'many:perturb:sources-absent:{"all" if len(absent) == len(sel) else "some"}')
        if len({obs.recs[p]['method'] for p in sel}) > 1: self.count_('many:selected:mixed-methods')
        if len({p.count('/') for p in sel}) > 1: self.count_('many:selected:nested-levels')
        return pre + [c]


# ------------------------------------------------------------------------------------------------ oracle

def _strip(b):
    return hashref.strip_crlf(b) if b is not None else None


def o7m_copy_move_many(steps, cfg, history):
    """C19 for every selected source of a multi-source command, from the observations alone.
    Demanded (the property): a modified source or (move; single-file copy without --force) a tracked destination => nothing
    changes; a copy without --force never overwrites a tracked destination; every other pair of a command that
    succeeded is carried out: destination tracked with the source's digest, the source's method unless overridden,
    the same cache object, the committed bytes unless --no-recheck; copy leaves every source as it was; move leaves the
    source untracked and absent and never changes the number of tracked files; no path is recorded twice.
    Accepted reasons for a refusal beyond the two the property names (each makes the property unsatisfiable or
    protects data another property is about): several sources for one file destination or one --name-only
    destination, a destination directory that is a tracked file, an untracked file at the destination, `move` of a
    present source whose content is not in the cache, and the K9 region (absent source, copy -> copy)."""
    out = []
    for st in steps:
        c = st['cmd']
        pre, post = st['pre'], st['post']
        if c['op'] not in MANY_OPS or pre is None or post is None or st['rc'] not in (0, 1):
            continue
        copy = c['op'] == 'copym'
        force = bool(copy and c.get('force'))
        pairs, isdir = many_pairs(c, pre)
        where = f"step {st['i']} {many_show(c)}"

        def obj(p):
            r = pre.recs[p]
            return pre.cache.get(rc.rec_addr(r, p)) if r['cur'] else None

        def modified(p):
            # the bytes now at the path do not hash (raw or CR/LF-stripped, independent hashers) to the recorded digest
            b, d = rc.read_through(pre, p), pre.recs[p]['cur']
            if b is None or not d:
                return False
            hexd = ''.join(f'{x:02x}' for x in d['digest'])
            return hexd not in (hashref.digest(d['algorithm'], b), hashref.digest(d['algorithm'], _strip(b)))
        recsig = lambda obs: {p: (json.dumps(r['cur'], sort_keys=True), r['method']) for p, r in obs.recs.items()}
        wssig = lambda obs: {p: (k['kind'], rc.read_through(obs, p)) for p, k in obs.ws.items()}
        unchanged = recsig(pre) == recsig(post) and wssig(pre) == wssig(post)
        ndst = collections.Counter(d for _, d in pairs)
        collision = any(n > 1 for n in ndst.values())
        new_dups = sorted(set(st.get('dups_post') or []) - set(st.get('dups_pre') or []))
        if new_dups:
            out.append((f"{where}: {new_dups} recorded by more than one entity afterwards" +
                        (f" (sources {[s for s, d in pairs if d in new_dups]} share the destination)" if collision else ''),
                        {'kind': 'name-only-collision'} if collision else {'kind': 'duplicate-path-records'}))
        if not copy and len(post.recs) != len(pre.recs) and not new_dups:
            out.append((f"{where}: number of tracked files changed from {len(pre.recs)} to {len(post.recs)}", {'kind': 'count-changed'}))
        mods = [s for s, _ in pairs if modified(s)]
        single_file = (not isdir) and len(pairs) == 1
        must = bool(mods) or (not copy and any(d in pre.recs for _, d in pairs)) or (single_file and pairs[0][1] in pre.recs and not force)
        if must:
            if not unchanged:
                why = f'source {mods[0]} modified' if mods else 'destination tracked'
                out.append((f"{where}: must refuse ({why}) but changed records or workspace", {'kind': 'copy-move-not-refused', 'many': True}))
            continue
        dest_dir_is_file = isdir and c['dest'][:-1] in pre.recs
        def blocked(s):      # move deletes a present source file (it is renamed only copy -> copy with recheck): the object must exist
            r = pre.recs[s]
            renamed = r['method'] == 'copy' and (c.get('method') or r['method']) == 'copy' and not c.get('no_recheck')
            o = obj(s)
            return s in pre.ws and not renamed and not (o and o['bytes'] is not None)
        def k9(s):
            r = pre.recs[s]
            return s not in pre.ws and r['method'] == 'copy' and (c.get('method') or r['method']) == 'copy'
        allowed = (not pairs) or dest_dir_is_file or ((not isdir) and len(pairs) > 1) or collision or \
            (not copy and any(d in pre.ws or blocked(s) or k9(s) for s, d in pairs)) or \
            (single_file and pairs[0][1] in pre.ws and not force)
        if st['rc'] == 1:
            if not allowed:
                out.append((f"{where}: refused ({st['err'][-160:].strip()}) although no source has uncommitted changes, no destination is "
                            f"tracked or present and every source maps to its own destination", {'kind': 'copy-move-wrongly-refused', 'op': c['op'], 'many': True}))
            continue
        if not pairs or dest_dir_is_file or ((not isdir) and len(pairs) > 1):
            continue
        srcs = {s for s, _ in pairs}
        for s, d in pairs:
            rs = pre.recs[s]
            sb_, o = rc.read_through(pre, s), obj(s)
            if copy and d not in srcs:
                # copy leaves every selected source alone (carried out or skipped)
                if s not in post.recs or post.recs[s]['cur'] != rs['cur'] or post.recs[s]['method'] != rs['method'] or \
                        rc.read_through(post, s) != sb_ or (s in pre.ws) != (s in post.ws):
                    out.append((f"{where}: copy changed the source {s}", {'kind': 'source-changed', 'many': True}))
            if ndst[d] > 1:
                continue
            if copy and not force and (d in pre.recs or d in pre.ws):
                if d in pre.recs and (recsig(post).get(d) != recsig(pre)[d] or rc.read_through(post, d) != rc.read_through(pre, d)):
                    out.append((f"{where}: tracked destination {d} was overwritten without --force", {'kind': 'tracked-destination-overwritten'}))
                continue
            if not copy and (d in pre.ws or blocked(s) or k9(s)):
                continue
            if rh.ext_of(s) != rh.ext_of(d):
                continue                                                      # K2
            rd = post.recs.get(d)
            if not rd:
                out.append((f"{where}: destination {d} of source {s} is not tracked afterwards", {'kind': 'dest-not-tracked', 'many': True})); continue
            if rd['cur'] != rs['cur']:
                out.append((f"{where}: digest recorded for {d} differs from the digest of its source {s}", {'kind': 'dest-digest', 'many': True}))
            want_m = c.get('method') or rs['method']
            if rd['method'] != want_m:
                out.append((f"{where}: method recorded for {d} is {rd['method']}, expected {want_m}", {'kind': 'dest-method', 'many': True}))
            if rc.rec_addr(rd, d) != rc.rec_addr(rs, s):
                out.append((f"{where}: {d} does not share the cache object of {s}", {'kind': 'dest-object', 'many': True}))
            if not c.get('no_recheck') and o is not None and o['bytes'] is not None and rc.read_through(post, d) != o['bytes']:
                got = rc.read_through(post, d)
                out.append((f"{where}: {d} {'is absent' if got is None else 'has other bytes than the committed version of ' + s}", {'kind': 'dest-bytes', 'many': True}))
            if not copy and (s in post.recs or s in post.ws) and s not in {dd for _, dd in pairs}:
                out.append((f"{where}: move left the source {s} {'tracked' if s in post.recs else 'present'}", {'kind': 'source-left', 'many': True}))
    return out


MANY_ORACLES = [o7m_copy_move_many, rc.o1r_recheck_restores]

# replays: the name-only collision (finding F28 up to 57353a5e; since the repair 6bdf9b9d the command is refused, which the
# oracle accepts)
_COLL = [W('d/a.txt', b'content of d/a\n'), W('d2/a.txt', b'content of d2/a\n'), W('d/b.txt', b'b\n'),
         T(['d/a.txt', 'd2/a.txt', 'd/b.txt'])]
MANY_REPLAYS = [
    ('name-only-collision', rc.DEF, _COLL + [
        {'op': 'copym', 'source': '**/*.txt', 'dest': 'on/', 'name_only': True, 'cands': ['d/a.txt', 'd/b.txt', 'd2/a.txt']}]),
    ('name-only-collision-force', rc.DEF, _COLL + [
        {'op': 'copym', 'source': '*/a.txt', 'dest': 'on/', 'name_only': True, 'force': True, 'no_recheck': True, 'cands': ['d/a.txt', 'd2/a.txt']}]),
]
# fixed histories that always run (shapes the generator reaches only with some seeds)
MANY_CORPUS = [
    ('dir-nested-name-only', rc.DEF, [W('d/a.txt', b'1\n'), W('d/e/n.txt', b'2\n'), W('d/e/f/z.txt', b'3\n'), W('d/x.bin', b'4\x00'), T(['d/a.txt', 'd/e/n.txt', 'd/e/f/z.txt', 'd/x.bin']),
                                      {'op': 'copym', 'source': 'd/', 'dest': 'o1/', 'cands': ['d/a.txt', 'd/x.bin']},
                                      {'op': 'copym', 'source': 'd', 'dest': 'o2/', 'name_only': True, 'method': 'symlink', 'cands': ['d/a.txt', 'd/e/f/z.txt', 'd/e/n.txt', 'd/x.bin']},
                                      {'op': 'movem', 'source': 'd', 'dest': 'o3/', 'cands': ['d/a.txt', 'd/e/f/z.txt', 'd/e/n.txt', 'd/x.bin']},
                                      {'op': 'movem', 'source': 'o3/d/e/**', 'dest': 'o1/', 'method': 'hardlink', 'cands': ['o3/d/e/f/z.txt', 'o3/d/e/n.txt']}]),
    ('partly-existing', rc.DEF, [W('d/a.txt', b'1\n'), W('d/b.txt', b'2\n'), W('d/c.txt', b'3\n'), W('out/d/a.txt', b'other\n'), W('out/d/b.txt', b'untracked\n'),
                                 T(['d/a.txt', 'd/b.txt', 'd/c.txt', 'out/d/a.txt']),
                                 {'op': 'movem', 'source': 'd/', 'dest': 'out/', 'cands': ['d/a.txt', 'd/b.txt', 'd/c.txt']},
                                 {'op': 'copym', 'source': 'd/', 'dest': 'out/', 'cands': ['d/a.txt', 'd/b.txt', 'd/c.txt']},
                                 {'op': 'copym', 'source': 'd/*.txt', 'dest': 'out/', 'force': True, 'cands': ['d/a.txt', 'd/b.txt', 'd/c.txt']}]),
    ('partly-modified-absent', {'algo': 1, 'method': 'symlink', 'tob': 'auto'},
     [W('d/a.txt', b'1\n'), W('d/b.txt', b'2\n'), W('d/c.txt', b'3\n'), T(['d/a.txt', 'd/b.txt', 'd/c.txt']), {'op': 'delete', 'path': 'd/a.txt'}, W('d/b.txt', b'edited\n'),
      {'op': 'copym', 'source': 'd/', 'dest': 'o1/', 'cands': ['d/a.txt', 'd/b.txt', 'd/c.txt']},
      {'op': 'movem', 'source': 'd/', 'dest': 'o1/', 'cands': ['d/a.txt', 'd/b.txt', 'd/c.txt']},
      RC(['d/b.txt'], force=True),
      {'op': 'copym', 'source': 'd/[ab].txt', 'dest': 'o1/', 'no_recheck': True, 'cands': ['d/a.txt', 'd/b.txt']},
      {'op': 'movem', 'source': 'd/', 'dest': 'o2/', 'cands': ['d/a.txt', 'd/b.txt', 'd/c.txt']},
      {'op': 'movem', 'source': 'o2/d/*', 'dest': 'single.txt', 'cands': ['o2/d/a.txt', 'o2/d/b.txt', 'o2/d/c.txt']},
      {'op': 'copym', 'source': 'o2/d/', 'dest': 'o1/d/a.txt/', 'cands': ['o2/d/a.txt', 'o2/d/b.txt', 'o2/d/c.txt']}]),
]


def _case(cfg, hist):
    return {'cfg': cfg, 'many_history': [many_store_line(c) for c in hist], 'readable': [many_show(c) for c in hist]}


def _judge(steps, cfg, hist):
    fails = []
    for o in MANY_ORACLES:
        fails += o(steps, cfg, hist)
    return fails


def run_many(chk, model, xvc):
    """the multi-source stream; called by run_property just before the verdict"""
    import time
    t_start = time.time()
    quick = chk.tier == 'quick'
    n = 80 if quick else 900
    fixed = collisions_refused()
    r = ManyRunner(chk, xvc, model)
    have_model = os.path.exists(model)
    dist = collections.Counter()
    gens = [ManyGen(chk.rng.getrandbits(64), i, lambda k: dist.update([k])) for i in range(n)]
    jobs = [('corpus', name, cfg, h, None) for name, cfg, h in MANY_CORPUS] + [('gen', f'm{i}', g.cfg, None, g) for i, g in enumerate(gens)]

    def one(job):
        kind, name, cfg, h, g = job
        try:
            return r.run_adaptive('many-' + name, cfg, g.batch if g else None, fixed_history=h)
        except Exception:
            import traceback
            return (h or []), [{'i': -1, 'cmd': {'op': 'harness-error'}, 'rc': -1, 'err': traceback.format_exc()[-800:], 'abs': 'harness-error', 'pre': None, 'post': None, 'out': ''}]
    with ThreadPoolExecutor(max_workers=16) as ex:
        results = list(ex.map(one, jobs))
    for k, v in dist.items():
        chk.count(k, v)
    mod = r.many_model_answers([(job[2], hist) for job, (hist, _) in zip(jobs, results)], fixed) if have_model else [[None] * len(h) for h, _ in results]
    st_tie = chk.tie['streams'].setdefault('c19-many (multi-source copy/move)', {'histories': 0, 'commands': 0, 'multi_source_commands': 0, 'pairs_carried_out': 0,
                                                                                 'disagreements': 0, 'panics': 0, 'collisions_refused_variant': fixed})
    first_dis, shrunk = None, set()
    for job, (hist, steps), m in zip(jobs, results, mod):
        kind, name, cfg, _, g = job
        chk.evaluations += 1
        st_tie['histories'] += 1
        if steps and steps[0]['cmd']['op'] == 'harness-error':
            chk.disagreement('c19-many', [many_show(c) for c in hist], steps[0]['err'], '', 'harness error')
            continue
        carried = 0
        for s, ml in zip(steps, m):
            st_tie['commands'] += 1
            c = s['cmd']
            if c['op'] in MANY_OPS:
                st_tie['multi_source_commands'] += 1
                pairs, isdir = many_pairs(c, s['pre'])
                done = [d for _, d in pairs if s['rc'] == 0 and d in s['post'].recs and (c.get('force') or d not in s['pre'].recs)]
                carried += len(done)
                st_tie['pairs_carried_out'] += len(done)
                chk.count(f"many:rc:{c['op']}:{s['rc']}")
                chk.count(f"many:carried-out:{min(len(done), 4)}{'+' if len(done) >= 4 else ''}")
                if s['rc'] == 0 and len(done) < len(pairs): chk.count('many:copy:some-pairs-skipped')
            if s['rc'] not in (0, 1): st_tie['panics'] += 1
            if ml is None:
                continue
            d = rh.compare_step(s, ml)
            if d:
                st_tie['disagreements'] += 1
                if first_dis is None:
                    first_dis = (cfg, hist, s, ml, d)
                break
        if carried >= 2:
            chk.nontrivial.add('many-' + hashlib.sha1(json.dumps([many_store_line(c) for c in hist]).encode()).hexdigest())
        seen = set()
        for msg, sig in _judge(steps, cfg, hist):
            key = json.dumps(sig, sort_keys=True)
            if key in seen: continue
            seen.add(key)
            h2 = hist
            if key not in shrunk and len(shrunk) < 2:
                # minimise: drop commands while the same kind of failure remains (re-run on the real binary)
                shrunk.add(key)
                def still(cand, key=key, cfg=cfg):
                    _, st2 = r.run_adaptive('many-shrink', cfg, None, fixed_history=cand)
                    return any(json.dumps(sg, sort_keys=True) == key for _, sg in _judge(st2, cfg, cand))
                h2 = common.shrink(list(hist), still, max_steps=40)
                _, st2 = r.run_adaptive('many-shrink', cfg, None, fixed_history=h2)
                msg = next((mm for mm, sg in _judge(st2, cfg, h2) if json.dumps(sg, sort_keys=True) == key), msg)
            chk.oracle_failure(msg, _case(cfg, h2), None, signature=sig)
        if len(chk.samples) < 8 and carried >= 2 and st_tie['histories'] % 7 == 3:
            chk.samples.append({'cfg': cfg, 'history': [many_show(c) for c in hist], 'final_abstraction_implementation': steps[-1]['abs'][:600],
                                'final_abstraction_model': (m[len(steps) - 1] or '')[:600]})
    if first_dis:
        cfg, hist, s, ml, d = first_dis
        chk.disagreement('c19-many', dict(_case(cfg, hist[:s['i'] + 1]), model_lines=[many_model_line(c, fixed) for c in hist[:s['i'] + 1]]), s['abs'], ml, d)
    # replays of the finding: oracle only (with the repair in the tree also compared with the model)
    for name, cfg, h in MANY_REPLAYS:
        hist, steps = r.run_adaptive('many-replay-' + name, cfg, None, fixed_history=h)
        chk.evaluations += 1
        chk.count(f"many:replay:{name}:rc={steps[-1]['rc']}")
        for msg, sig in _judge(steps, cfg, hist):
            chk.oracle_failure(msg, dict(_case(cfg, hist), replay_of=name), None, signature=sig)
        if fixed and have_model:
            m = r.many_model_answers([(cfg, hist)], True)[0]
            for s, ml in zip(steps, m):
                d = rh.compare_step(s, ml)
                if d:
                    chk.disagreement('c19-many', dict(_case(cfg, hist[:s['i'] + 1]), replay_of=name), s['abs'], ml, d); break
    st_tie['wall_s'] = round(time.time() - t_start, 1)
    chk.extra['rule'] = chk.extra.get('rule', '') + (
        f' || multi-source stream: {len(MANY_CORPUS)} fixed + {n} adaptive histories (repository with nested directories, equal file names in different '
        'directories, two extensions, tracked/untracked files, mixed recheck methods; then 3..5 commands `xvc file copy|move <dir/ | dir | glob | class | file> '
        '<dir/ | file>` with --name-only/--no-recheck/--recheck-method/--force, each preceded by perturbations drawn from the OBSERVED repository: source '
        'modified / absent, destination tracked / untracked, object removed), every command compared with the Lean driver (copym/movem) and judged by '
        'o7m_copy_move_many; non-trivial = at least two pairs carried out')
    chk.assumptions.append('multi-source stream: which recorded paths a SOURCE argument selects is computed by lib/c19.py candidates() (C18 is about selection); '
                           'excluded regions: --name-only collisions (replayed, finding), a destination that is itself a selected source, K2, K9, K1')


def run(chk):
    n = 30 if chk.tier == 'quick' else 300
    ctx = {}
    orig_lean, orig_build = chk.lean, chk.build_xvc

    def lean(pkg, props, exe=None, extra_modules=()):           # remember what run_property builds
        res = orig_lean(pkg, props, exe=exe, extra_modules=extra_modules)
        if exe: ctx['model'] = res
        return res

    def build_xvc(features=None):
        ctx['xvc'] = orig_build(features)
        return ctx['xvc']
    chk.lean, chk.build_xvc = lean, build_xvc
    return rc.run_property(chk, 'C19', ORACLES, restore=RESTORE, nq=250, extra_corpus=chain_histories(chk.seed, n),
                           extra_props=['XvcRepo.Props.C19Many', 'XvcRepo.Props.C19Dest'], before_finish=lambda: run_many(chk, ctx['model'], ctx['xvc']))


def replay(chk, data):
    many = [f for f in data.get('failures', []) if 'many_history' in f.get('case', {})]
    rest = dict(data, failures=[f for f in data.get('failures', []) if 'many_history' not in f.get('case', {})])
    if many:
        r = ManyRunner(chk, chk.build_xvc(), '/bin/false')
        for f in many:
            case = f['case']
            h = [c for c in (many_parse_line(l) for l in case['many_history']) if c]
            hist, steps = r.run_adaptive('many-replay', case['cfg'], None, fixed_history=h)
            fails = _judge(steps, case['cfg'], hist)
            chk.evaluations += 1
            for c, s in zip(hist, steps): print(' ', many_show(c), '-> rc', s['rc'])
            print('oracle:', [m for m, _ in fails] or 'property holds on this input')
            for msg, sig in fails:
                chk.oracle_failure(msg, case, None, signature=sig)
        if not rest['failures']:
            return chk.finish()
    return rc.replay_property(chk, rest, ORACLES, restore=RESTORE)
