"""C19 — see DESIGN.md section 4 ("the repository model") and lean/XvcRepo/XvcRepo/Props/C19.lean.
Proof: Lean theorems about the executable repository model.  Tie: the model driver is compared with the rebuilt xvc
binary after every command of generated histories.  Oracle: model-independent, lib/repo_check.py."""
import random
import repo_check as rc
from repo_check import W, T, CI, RC

ORACLES = [rc.o7_copy_move]
RESTORE = None


def chain_histories(seed, n):
    """Copies of copies and moves of copies: everything `copy`/`move` must carry over from the source (digest, method,
    text/binary mode, metadata) is needed again when the destination becomes a source.  Sources are committed with an
    explicit text/binary mode that differs from auto-detection, with every method, present / absent / re-checked."""
    rng = random.Random(f'c19-chains-{seed}')
    out = []
    for i in range(n):
        e = rng.choice(['txt', 'bin', ''])
        nm = lambda s: s + ('.' + e if e else '')
        names = [nm('f0'), nm('d/f1'), nm('f2'), nm('d/e/f3'), nm('f4')]
        text = rng.random() < 0.7
        body = (bytes(f'line one {i}\nline two\r\nline three\n', 'ascii') if text else bytes(f'bin{i}', 'ascii') + b'\x00\x01\n\xff')
        tob = rng.choice(['binary', 'text', 'auto', None])
        cfg = {'algo': rng.choice([0, 0, 1, 2, 3]), 'method': rng.choice(['copy', 'copy', 'symlink', 'reflink']), 'tob': 'auto'}
        h = [W(names[0], body), T([names[0]], tob=tob, method=rng.choice([None, None, 'symlink', 'copy']))]
        cur = names[0]
        for k in range(1, rng.randint(3, 5)):
            op = rng.choice(['copy', 'copy', 'move'])
            m = rng.choice([None, None, 'copy', 'symlink'])
            if rng.random() < 0.2:
                h.append({'op': 'delete', 'path': cur})                      # the source content is not in the workspace
            if op == 'copy':
                h.append({'op': 'copy', 'src': cur, 'dst': names[k], 'method': m, 'no_recheck': rng.random() < 0.15})
            else:
                h.append({'op': 'move', 'src': cur, 'dst': names[k], 'method': m})
            if rng.random() < 0.3:
                h.append(RC([names[k]], force=rng.random() < 0.5))
            cur = names[k]
        h.append(RC([cur], method='copy', force=True))
        out.append((f'chain-{i}', cfg, h))
    return out


def run(chk):
    n = 30 if chk.tier == 'quick' else 300
    return rc.run_property(chk, 'C19', ORACLES, restore=RESTORE, nq=250, extra_corpus=chain_histories(chk.seed, n))


def replay(chk, data):
    return rc.replay_property(chk, data, ORACLES, restore=RESTORE)
