"""C10 — Pipeline steps run only after everything they depend on succeeded.

Proof: lean/XvcPipeline Props/C10.lean (C10_fsm_respected, C10_deps_done_before_start, C10_failed_upstream_blocks,
C10_cycle_rejected, acyclic_iff_toposort, ...) over the scheduler transition system, any graph, any schedule.
Tie: translator (state machine, run conditions, handler events) + hook traces of real runs validated by the model
driver (logged edge list = buildGraph, every logged transition is a Next step, final states equal).
Oracle: start/end journal written by the step commands.
"""
import sched_common as sc
import sched_history as sh

OWN = {'C10'}
SIGNALS = [11, 9, 15, 6]        # SEGV, KILL, TERM, ABRT


def corpus():
    """runs first.  Seed C10-2 (minimised): the producer's command is terminated by a signal after it wrote its output
    file; one dependent by --step, one by --file of that output, one by --glob; neither may start (a command killed by a
    signal has not finished successfully), and the producer must not be reported done."""
    cases = []
    for sig in SIGNALS:
        for touch in (True, False):
            spec = sc.mk_spec(4, [(1, 0, 'step'), (2, 0, 'file'), (3, 0, 'glob')])
            behav = [{'signal': sig, 'sigtouch': touch, 'out': 100 if touch else 0}, {}, {}, {}]
            cases.append(sc.mk_case(spec, 4, behav, label=f'corpus/C10-2 signal {sig}'))
    # controls: exit 0 -> all dependents run; exit 3 and exit 139 (a shell reporting a child's SIGSEGV) -> none
    for rc in (0, 3, 139):
        spec = sc.mk_spec(4, [(1, 0, 'step'), (2, 0, 'file'), (3, 0, 'glob')])
        cases.append(sc.mk_case(spec, 4, [{'rc': rc}, {}, {}, {}], label=f'corpus/control exit {rc}'))
    # an always dependent of a signal-killed step runs; a chain behind it is blocked
    spec = sc.mk_spec(3, [(1, 0, 'step'), (2, 1, 'step')], whens=['by_dependencies', 'always', 'by_dependencies'])
    cases.append(sc.mk_case(spec, 2, [{'signal': 9}, {}, {}], label='corpus/always after signal'))
    return cases
PROPS = 'XvcPipeline.Props.C10'


def variants(rng, n, edges, k, quick):
    """k cases for one DAG: edge kinds, when-options, outcomes (true / false / sleep), pool, second run"""
    out = []
    for v in range(k):
        mode = rng.choice(['step', 'file', 'glob', 'mixed', 'mixed'])
        kinds = [mode if mode != 'mixed' else rng.choice(['step', 'file', 'glob', 'globi']) for _ in edges]
        whens = [rng.choice(['by_dependencies'] * 5 + ['always', 'always', 'never']) for _ in range(n)]
        inputs = [rng.random() < 0.3 for _ in range(n)]
        behav = []
        for i in range(n):
            r = rng.random()
            if r < 0.45:
                behav.append({'sleep_ms': 0})                       # `true`
            elif r < 0.7:
                behav.append({'sleep_ms': rng.choice([30, 80, 150])})   # `sleep`
            elif r < 0.80:
                behav.append({'rc': 1})                             # `false`
            elif r < 0.90:
                behav.append({'rc': 1, 'sleep_ms': rng.choice([30, 80])})
            else:                                                   # terminated by a signal (SEGV, KILL, TERM, ABRT)
                behav.append({'signal': rng.choice(SIGNALS), 'sigtouch': rng.random() < 0.5, 'sleep_ms': rng.choice([0, 40]),
                              'out': rng.choice([0, 0, 200])})
        # upstream steps slower than downstream ones make a premature start visible
        if v % 3 == 0:
            for (a, j) in [(e[0], e[1]) for e in edges]:
                behav[j]['sleep_ms'] = max(behav[j].get('sleep_ms', 0), 90)
        pool = rng.choice([1, 2, n, 4])
        runs = 2 if rng.random() < 0.25 else 1
        out.append(sc.mk_case(sc.mk_spec(n, edges, kinds, whens, inputs), pool, behav, runs=runs, label='dag',
                              touch_inputs=runs == 2 and rng.random() < 0.5))
    return out


def gen_cases(chk, quick):
    rng = chk.rng
    cases = []
    dags4 = list(sc.all_dags(4))
    assert len(dags4) == 543
    small = [(n, e) for n in (1, 2, 3) for e in sc.all_dags(n)]
    if quick:
        sample = rng.sample(dags4, 60)
        for e in sample:
            cases += variants(rng, 4, e, 2, quick)
        for n, e in small:
            cases += variants(rng, n, e, 1, quick)
    else:
        for e in dags4:
            cases += variants(rng, 4, e, 3, quick)
        for n, e in small:
            cases += variants(rng, n, e, 12, quick)
        for _ in range(150):
            n = rng.randint(5, 8)
            cases += variants(rng, n, sc.random_dag(rng, n, rng.choice([0.2, 0.35, 0.5])), 1, quick)
    # failed upstream / always / never chains (targeted)
    for w in sc.WHENS:
        for rc0 in (0, 1):
            for kind in ('step', 'file', 'glob', 'globi'):
                # s2 -> s1 -> s0 ; s0 fails or not; s1 has when=w
                spec = sc.mk_spec(3, [(1, 0, kind), (2, 1, kind)], whens=['by_dependencies', w, 'by_dependencies'])
                cases.append(sc.mk_case(spec, 2, [{'rc': rc0, 'sleep_ms': 60}, {'sleep_ms': 30}, {}], label='chain'))
    # two runs of an all-succeeding pipeline with private inputs: second run finds steps up to date; with touched inputs
    # the thorough comparison decides
    for touch in (False, True):
        spec = sc.mk_spec(3, [(1, 0, 'step'), (2, 1, 'step')], inputs=[True, True, True])
        cases.append(sc.mk_case(spec, 2, [{'sleep_ms': 30}, {}, {}], runs=2, touch_inputs=touch, label='second-run'))
    # outputs that do not exist before the run (first run in a fresh clone): the producer creates them
    for kind in ('file', 'glob', 'globi'):
        for n_cons in (1, 2):
            edges = [(i, 0, kind) for i in range(1, n_cons + 1)]
            spec = sc.mk_spec(n_cons + 1, edges)
            cases.append(sc.mk_case(spec, 4, [{'sleep_ms': 120}] + [{} for _ in range(n_cons)], absent_outputs=True, label='absent-output'))
    return cases


def gen_cycles(chk, quick):
    rng = chk.rng
    cases = []
    shapes = [(1, [(0, 0)]), (2, [(0, 1), (1, 0)]), (3, [(0, 1), (1, 2), (2, 0)]), (3, [(0, 1), (1, 0), (2, 0)]),
              (4, [(0, 1), (1, 2), (2, 3), (3, 1)]), (4, [(0, 1), (2, 3), (3, 2)])]
    for n, edges in shapes:
        for mode in (['step', 'file', 'glob', 'mixed'] if not quick else ['step', 'file', 'mixed']):
            if (n, edges) == (1, [(0, 0)]) and mode != 'step':
                pass        # a step reading its own output is a self loop as well
            kinds = [mode if mode != 'mixed' else rng.choice(['step', 'file', 'glob']) for _ in edges]
            cases.append(sc.mk_case(sc.mk_spec(n, edges, kinds), 2, label='cycle'))
    if not quick:
        for _ in range(40):
            n = rng.randint(3, 6)
            edges = sc.random_dag(rng, n, 0.3)
            # close a cycle
            a, b = rng.sample(range(n), 2)
            edges = list({(x, y) for (x, y) in edges} | {(a, b), (b, a)})
            kinds = [rng.choice(['step', 'file', 'glob']) for _ in edges]
            cases.append(sc.mk_case(sc.mk_spec(n, edges, kinds), 2, label='cycle'))
    return cases


def model_cycle_test(ctx, chk, quick):
    """the model's Kahn test against the independent python test on all digraphs on <= 3 (quick) / 4 nodes"""
    import itertools, common
    if not ctx.model:
        return
    graphs = []
    for n in range(1, (4 if quick else 5)):
        pairs = [(i, j) for i in range(n) for j in range(n)]
        if n == 4:
            pairs = [(i, j) for i in range(n) for j in range(n) if i != j]
        for mask in range(1 << len(pairs)):
            graphs.append((n, [p for k, p in enumerate(pairs) if mask >> k & 1]))
    lines = [f'{n} e=' + ','.join(f'{a}>{b}' for a, b in e) for n, e in graphs]
    rc, out, err = common.run_lines(ctx.model, ['acyclic'], lines)
    st = chk.tie['streams'].setdefault('acyclic-model', {'graphs': len(graphs), 'disagreements': 0})
    for (n, e), a in zip(graphs, out):
        want = 'acyclic' if sc.is_acyclic(n, e) else 'cycle'
        chk.evaluations += 1
        if a != want:
            st['disagreements'] += 1
            if st['disagreements'] <= 3:
                chk.disagreement('acyclic-model', {'n': n, 'edges': e}, want, a, 'model cycle test differs from the reference')


def model_edge_test(ctx, chk):
    """the model's `dependencies_to_path` (driver command `edge`, = Gen.depEdge regenerated from the Rust arms) against the
    harness's own reading of "reads" on generated questions, including: items recorded, output not recorded but matching"""
    import common
    if not ctx.model:
        return
    qs = []
    pats = ['data/*.txt', 'data/a?.txt', 'out/s1/*.txt', '*.csv', 'd/e/*.bin']
    paths = ['data/a.txt', 'data/b.txt', 'data/ab.txt', 'data/sub/c.txt', 'out/s1/o.txt', 'x.csv', 'd/e/f.bin', 'other.txt']
    for pat in pats:
        matching = [p for p in paths if sh.hmatch(pat, p)]
        for out in paths:
            for rec in ([], matching[:1], matching, [m for m in matching if m != out]):
                for kind in ('Glob', 'GlobItems'):
                    qs.append((kind, pat, rec, out, sh.hmatch(pat, out)))
    for kind in ('File', 'Regex', 'RegexItems', 'Lines', 'LineItems', 'Param', 'SqliteQueryDigest'):
        for a in paths[:4]:
            for b in paths[:4]:
                qs.append((kind, a, [], b, a == b))
    for kind in ('Step', 'Generic', 'UrlDigest'):
        qs.append((kind, 'x', [], 'x', False))
    lines = [f'{k} {pat} {",".join(rec) if rec else "-"} {out}' for (k, pat, rec, out, _) in qs]
    rc, outl, err = common.run_lines(ctx.model, ['edge'], lines)
    st = chk.tie['streams'].setdefault('edge-model', {'questions': len(qs), 'recorded_nonempty_and_out_not_recorded_but_matching': 0, 'disagreements': 0})
    for (k, pat, rec, out, want), a in zip(qs, outl):
        chk.evaluations += 1
        if rec and out not in rec and want:
            st['recorded_nonempty_and_out_not_recorded_but_matching'] += 1
        if a != ('true' if want else 'false'):
            st['disagreements'] += 1
            if st['disagreements'] <= 3:
                chk.disagreement('edge-model', {'kind': k, 'declared': pat, 'recorded': rec, 'output': out}, 'reads' if want else 'does not read', a,
                                 'the regenerated dependencies_to_path of the model differs from "reads" computed from the declared pattern/path')


def run(chk):
    quick = chk.tier == 'quick'
    ctx = sc.prepare(chk, PROPS)
    cases = gen_cases(chk, quick)
    cycles = gen_cycles(chk, quick)
    chk.extra['rule'] = (
        ('a seeded sample of 60 of the 543 labelled DAGs on 4 steps x 2 variants + all 29 DAGs on <= 3 steps' if quick else
         'ALL 543 labelled DAGs on 4 steps x 3 variants + all 29 DAGs on <= 3 steps x 12 variants + 150 random DAGs on 5..8 steps') +
        '; a variant draws: realisation of every edge (explicit --step | --output-file/--file | --output-file/--glob), when in {by_dependencies, always, never}, '
        'a private input file dependency (p=.3), per step command true | sleep 30-150 ms | false | sleep+false | terminated by a signal (SEGV/KILL/TERM/ABRT, p=.1, '
        'half of them after writing the output file), pool in {1,2,4,n}, one or two consecutive runs; '
        'SHARED OUTPUTS (seed C10-4 first): one path declared as output by 2-3 steps and read by a third through --file/--glob/--glob_items/--regex/--regex_items/--lines/--line_items, '
        'producers ok/failing/slow, each pipeline run 3 times; the consumer must wait for EVERY producer and not run after ANY failed (producers of a path = a set computed by the harness); '
        'HISTORIES in which the pipeline is EDITED between runs (run1 -> edit -> run2 -> producer fails -> run3; first the minimised C10-3 scenario): for every edge '
        'realisation (step, file, glob, glob_items, regex, regex_items, lines, line_items) x {producer step added, output added to an existing step, dependency added to '
        'an existing consumer} after state was recorded, judged per run on the pipeline as defined at that stage ("reads" from declared patterns/paths by the harness), '
        'on the hook-free binary and on the hook build (logged edge list vs the model\'s buildGraph with the recorded items); the model\'s dependencies_to_path '
        '(driver `edge`) against the harness on generated questions; '
        'CORPUS first: the C10-2 scenario (producer killed by each of 4 signals with/without output written; dependents by --step, --file, --glob), controls exit 0/3/139, an always dependent; '
        '18 targeted chains s2->s1->s0 (s0 fails or not, when(s1) in all three, all three edge kinds); producers creating outputs that do not exist before the run; '
        f'{len(cycles)} cyclic graphs (self loop, 2- and 3-cycles, cycle plus tail, through explicit and output-file edges). '
        'Each case runs on the hook-free binary (journal oracle) and on the hook build with seeded delays (journal oracle + trace validated by the model driver). '
        'Non-trivial: >= 2 steps, an edge or pool < n, at least one command executed.')
    chk.extra['exhaustive'] = not quick
    chk.extra['exhaustive_part'] = 'graph shapes: all labelled DAGs on <= 4 steps' if not quick else 'all labelled DAGs on <= 3 steps'
    model_cycle_test(ctx, chk, quick)
    corp = corpus()
    hist = sh.corpus() + sh.gen_shared_outputs(chk.rng, quick) + sh.gen_histories(chk.rng, quick)
    sc.run_family(ctx, 'corpus/plain', corp, OWN, hook=False)
    sc.run_family(ctx, 'history/plain', hist, OWN, hook=False, shrink=False)
    if ctx.xvc_hook:
        sc.run_family(ctx, 'corpus/hook', [dict(c, sched=f'{chk.seed}:300') for c in corp], OWN, hook=True)
        sc.run_family(ctx, 'history/hook', [dict(c, sched=f'{chk.seed + 5}:300') for c in hist], OWN, hook=True, shrink=False)
    model_edge_test(ctx, chk)
    sc.run_family(ctx, 'dag/plain', cases, OWN, hook=False)
    sc.run_family(ctx, 'cycle/plain', cycles, OWN, hook=False, validate=False)
    if ctx.xvc_hook:
        hooked = []
        for k, c in enumerate(cases):
            c2 = dict(c)
            c2['sched'] = f'{chk.seed * 104729 + k}:{chk.rng.choice([0, 200, 1500, 5000])}'
            hooked.append(c2)
        sc.run_family(ctx, 'dag/hook', hooked, OWN, hook=True)
    return chk.finish()


def replay(chk, data):
    return sc.replay(chk, data, OWN, PROPS)
