#!/usr/bin/env python3
"""developer tool: run N generated histories through xvc and the repo model, print disagreements"""
import sys, os, random, collections
sys.path.insert(0, '/verif/lib')
from common import Check
import repo_harness as rh
n = int(sys.argv[1]) if len(sys.argv) > 1 else 30
seed = int(sys.argv[2]) if len(sys.argv) > 2 else 0
chk = Check('C01', 'quick', seed)
r = rh.Runner(chk, os.environ.get('XVC', '/repo/target/debug/xvc'), '/verif/lean/XvcRepo/.lake/build/bin/repomodel')
rng = random.Random(seed)
items = []
for i in range(n):
    cfg, h = rh.gen_history(rng)
    items.append((f'h{i}', cfg, h))
res = r.run_many(items)
mod = r.model_answers([(c, h) for _, c, h in items])
bad = collections.Counter()
shown = 0
for (name, cfg, h), steps, m in zip(items, res, mod):
    for st, ml in zip(steps, m):
        d = rh.compare_step(st, ml)
        if d:
            key = st['cmd']['op'] + ':' + d.split(':')[0]
            bad[key] += 1
            if shown < int(os.environ.get('SHOW', '3')):
                shown += 1
                print('=' * 100); print(name, cfg)
                for k, c in enumerate(h[:st['i'] + 1]): print('  ', k, rh.show_cmd(c))
                print('DIFF:', d); print('rc', st['rc'], 'err:', st['err'][-300:])
                print('impl :', st['abs']); print('model:', ml)
            break
print('histories', n, 'disagreements by kind:', dict(bad))
import shutil; shutil.rmtree(chk.scratch, ignore_errors=True)
