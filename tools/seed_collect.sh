#!/bin/bash
# usage: seed_collect.sh <round> <prop> <eval worktree> [--notests]
# Copies /tmp/seed<round>-<prop>/SEED to /verif/seeded/<prop>-<round>/, then confirms in the (clean) evaluation worktree:
# patch applies to HEAD, builds, demo exits 1 with the change / 0 without, the 189 baseline tests still pass with the change.
r=$1; p=$2; wt=$3; id=$p-$r; src=/tmp/seed$r-$p/SEED; dst=/verif/seeded/$id
export RUSTUP_TOOLCHAIN=1.96.0 CARGO_PROFILE_DEV_DEBUG=0 CARGO_INCREMENTAL=0 CARGO_NET_OFFLINE=true RUST_BACKTRACE=0
[ -f $src/patch.diff ] || { echo "no $src/patch.diff"; exit 2; }
mkdir -p $dst && cp -r $src/* $dst/
git -C $wt status --short | grep -q . && { echo "$wt not clean"; exit 2; }
git -C $wt apply $dst/patch.diff || { echo "patch does not apply to HEAD"; exit 2; }
(cd $wt && cargo build --offline -p xvc --bin xvc 2>&1 | grep -E "^error|Finished" | head -3)
arg=$wt/target/debug/xvc; arg0=/tmp/xvc-unchanged
if grep -q "source tree\|SOURCE TREE\|cargo test" $dst/demo.sh 2>/dev/null && ! grep -q 'xvc init\|file track' $dst/demo.sh; then arg=$wt; arg0=UNPATCHED; fi
if [ "$arg0" = UNPATCHED ]; then
  bash $dst/demo.sh $wt > $dst/demo_changed.log 2>&1; rc1=$?
  git -C $wt apply -R $dst/patch.diff
  bash $dst/demo.sh $wt > $dst/demo_unchanged.log 2>&1; rc0=$?
  git -C $wt status --short | grep -v '^??' | grep -q . && echo "WARNING: demo left changes"
  git -C $wt apply $dst/patch.diff
else
  bash $dst/demo.sh $arg > $dst/demo_changed.log 2>&1; rc1=$?
  bash $dst/demo.sh $arg0 > $dst/demo_unchanged.log 2>&1; rc0=$?
fi
echo "demo_changed_rc=$rc1 demo_unchanged_rc=$rc0" | tee $dst/confirm.txt
if [ "$4" != "--notests" ]; then
  out=$(mktemp)
  (cd $wt && cargo nextest run --workspace --no-fail-fast --test-threads 8 --offline > $out 2>&1)
  python3 - $out <<'PY' | tee -a $dst/confirm.txt
import json,re,sys
base=json.load(open('/root/.vp/BASELINE.json'))['stable_pass']
txt=open(sys.argv[1]).read()
pl={m.group(1)+'::'+m.group(2) for m in re.finditer(r'^\s*PASS \[[^\]]*\]\s+\(\s*\d+/\d+\)\s+(\S+)\s+(\S+)\s*$',txt,re.M)}
missing=[t for t in base if t not in pl]
print(f"baseline stable tests passing with the change: {len(base)-len(missing)}/{len(base)}", missing[:5])
PY
  rm -f $out
fi
git -C $wt checkout -- . ; git -C $wt clean -fdq -e target 2>/dev/null; git -C $wt status --short | head -3
