#!/bin/bash
# usage: seed_eval.sh <seed id, e.g. C10-1> [props-to-check...]   (seed files already under /verif/seeded/<id>/)
# Applies the patch to /repo (git apply), rebuilds, confirms the demonstration (exit 1 changed / 0 unchanged),
# runs the given checks, and undoes the change straight afterwards (git checkout -- .).
id=$1; shift; pid=${id%%-*}; props=${@:-$pid}
dst=/verif/seeded/$id
export RUSTUP_TOOLCHAIN=1.96.0
git -C /repo status --short | grep -q . && { echo "/repo is not clean"; exit 2; }
git -C /repo apply $dst/patch.diff || { echo "patch does not apply"; exit 2; }
(cd /repo && cargo build --offline -p xvc --bin xvc 2>&1 | grep -E "^error|Finished" | head -3)
echo "== demo with changed binary"; bash $dst/demo.sh /repo/target/debug/xvc > $dst/demo_changed.log 2>&1; rc1=$?; tail -2 $dst/demo_changed.log | cut -c1-300; echo "rc=$rc1"
echo "== demo with unchanged binary"; bash $dst/demo.sh /tmp/xvc-unchanged > $dst/demo_unchanged.log 2>&1; rc0=$?; tail -1 $dst/demo_unchanged.log | cut -c1-300; echo "rc=$rc0"
: > $dst/checks.txt
for p in $props; do
  echo "== ./check $p quick on the seeded tree"
  (cd /verif && ./check $p quick 2>&1 | grep -v "^KNOWN" | tail -3 | cut -c1-500 | tee -a $dst/checks.txt)
  for f in /verif/replays/$p-quick-seed0-*.json; do [ -f "$f" ] && cp $f $dst/detected-by-$p-$(basename $f | sed 's/.*seed0-//'); done
done
git -C /repo checkout -- . ; git -C /repo status --short | head -3
(cd /repo && cargo build --offline -p xvc --bin xvc 2>&1 | grep -E "^error" | head -3)
echo "demo_changed_rc=$rc1 demo_unchanged_rc=$rc0" > $dst/confirm.txt
rm -f /verif/replays/*
# generated snapshots and evidence written from the seeded tree are not kept
git -C /verif checkout -- evidence $(git -C /verif ls-files | grep '/Gen/') 2>/dev/null
