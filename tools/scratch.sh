# source this: creates a scratch git+xvc repo in $D (default /tmp/xvcs.$$) with isolated HOME; X = xvc binary
D=${D:-/tmp/xvcs.$$}; chmod -R u+w $D 2>/dev/null; rm -rf $D; mkdir -p $D/h/.config $D/r
export HOME=$D/h XDG_CONFIG_HOME=$D/h/.config RUST_BACKTRACE=0 GIT_AUTHOR_NAME=v GIT_AUTHOR_EMAIL=v@v GIT_COMMITTER_NAME=v GIT_COMMITTER_EMAIL=v@v
X=${X:-/repo/target/debug/xvc}
cd $D/r && git init -q -b main . && git commit -q --allow-empty -m root && $X init >/dev/null
