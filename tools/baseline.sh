#!/bin/bash
# Runs the repository's pinned baseline (guard OFF) and reports which of the 189 stable tests did not pass.
export RUSTUP_TOOLCHAIN=1.96.0 CARGO_NET_OFFLINE=true RUST_BACKTRACE=0
cd /repo || exit 2
out=$(mktemp)
cargo test --workspace --no-run --offline >/dev/null 2>&1
cargo nextest run --workspace --no-fail-fast --test-threads 8 --offline >"$out" 2>&1
python3 - "$out" <<'PY'
import json,re,sys
base=json.load(open('/root/.vp/BASELINE.json'))['stable_pass']
txt=open(sys.argv[1]).read()
pl=set()
for m in re.finditer(r'^\s*PASS \[[^\]]*\]\s+\(\s*\d+/\d+\)\s+(\S+)\s+(\S+)\s*$',txt,re.M):
    pl.add(m.group(1)+'::'+m.group(2))
ok=0;missing=[]
for t in base:
    if t in pl: ok+=1
    else: missing.append(t)
print(f"baseline stable tests passing: {ok}/{len(base)}")
for t in missing: print("  NOT PASSING:",t)
sys.exit(0 if not missing else 1)
PY
rc=$?
tail -5 "$out"; rm -f "$out"; exit $rc
