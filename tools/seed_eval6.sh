#!/bin/bash
# usage: seed_eval6.sh <worktree> <seed id> [props...] — apply the seed in the (clean) worktree, build, run ./check <prop> quick
# with VERIF_REPO, keep the replay as seeded/<id>/detected-by-*, write checks.txt, undo.  Evidence / Gen files are NOT restored here
# (several evaluations run at once): the caller restores them with git checkout when all are done.
wt=$1; id=$2; shift; shift; pid=${id%%-*}; props=${@:-$pid}
dst=/verif/seeded/$id
export RUSTUP_TOOLCHAIN=1.96.0 CARGO_PROFILE_DEV_DEBUG=0 CARGO_INCREMENTAL=0 CARGO_NET_OFFLINE=true
git -C $wt status --short | grep -q . && { echo "$wt is not clean"; exit 2; }
git -C $wt apply $dst/patch.diff || { echo "patch does not apply"; exit 2; }
(cd $wt && cargo build --offline -p xvc --bin xvc 2>&1 | grep -E "^error|Finished" | head -3)
: > $dst/checks.txt
for p in $props; do
  (cd /verif && VERIF_SEED=6 VERIF_REPO=$wt ./check $p quick 2>&1 | grep -v "^KNOWN" | tail -3 | cut -c1-500 | tee -a $dst/checks.txt)
  for f in /verif/replays/$p-quick-seed6-*.json; do [ -f "$f" ] && cp $f $dst/detected-by-$p-$(basename $f | sed 's/.*seed6-//') && rm -f $f; done
done
git -C $wt checkout -- . ; git -C $wt status --short | head -3
