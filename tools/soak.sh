#!/bin/bash
# soak: run quick checks of the given properties over several seeds; prints only failures
cd "$(dirname "$0")/.." || exit 2
./setup.sh >/dev/null 2>&1
props=${PROPS:-"C01 C02 C03 C04 C05 C06 C07 C08 C09 C10 C11 C12 C13 C14 C15 C16 C17 C18 C19 C20"}
for seed in ${SEEDS:-1 2 3 4 5 6 7 8}; do
  for p in $props; do
    out=$(VERIF_SEED=$seed ./check $p ${TIER:-quick} 2>&1 | grep -v "^KNOWN-FINDING")
    echo "seed=$seed $out" | tail -1
    if echo "$out" | grep -q VIOLATION; then
      f=$(echo "$out" | grep -o 'replay=[^ ]*' | head -1 | cut -d= -f2)
      echo "---- $f"; python3 - "$f" <<'PY'
import json,sys
d=json.load(open(sys.argv[1]))
for k in d.get('correspondence_that_no_longer_checks',[])[:2]:
    print('TIE',str(k.get('note'))[:600]); print('   ', k['case'].get('history') if isinstance(k['case'],dict) else k['case'])
for k in d.get('failures',[])[:3]:
    print('ORACLE',k['what'][:300]); print('   ',(k['case'].get('readable') if isinstance(k['case'],dict) else k['case'])); print('   ',k.get('signature'))
for k in d.get('proof_obligations_that_no_longer_check',[])[:2]: print('PROOF',str(k)[:500])
PY
    fi
  done
done
