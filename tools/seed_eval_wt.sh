#!/bin/bash
# usage: seed_eval_wt.sh <worktree> <seed id> [props...]  — like seed_eval.sh, but in a scratch worktree of /repo (VERIF_REPO), so
# /repo itself stays untouched while other work uses it.  The worktree must be clean and at /repo's HEAD.
wt=$1; id=$2; shift; shift; pid=${id%%-*}; props=${@:-$pid}
dst=/verif/seeded/$id
export RUSTUP_TOOLCHAIN=1.96.0 CARGO_PROFILE_DEV_DEBUG=0 CARGO_INCREMENTAL=0
git -C $wt status --short | grep -q . && { echo "$wt is not clean"; exit 2; }
git -C $wt apply $dst/patch.diff || { echo "patch does not apply"; exit 2; }
(cd $wt && cargo build --offline -p xvc --bin xvc 2>&1 | grep -E "^error|Finished" | head -3)
echo "== demo with changed binary"; bash $dst/demo.sh $wt/target/debug/xvc > $dst/demo_changed.log 2>&1; rc1=$?; tail -2 $dst/demo_changed.log | cut -c1-300; echo "rc=$rc1"
echo "== demo with unchanged binary"; bash $dst/demo.sh /tmp/xvc-unchanged > $dst/demo_unchanged.log 2>&1; rc0=$?; tail -1 $dst/demo_unchanged.log | cut -c1-300; echo "rc=$rc0"
: > $dst/checks.txt
for p in $props; do
  echo "== ./check $p quick on the seeded tree"
  (cd /verif && VERIF_REPO=$wt ./check $p quick 2>&1 | grep -v "^KNOWN" | tail -3 | cut -c1-500 | tee -a $dst/checks.txt)
  for f in /verif/replays/$p-quick-seed0-*.json; do [ -f "$f" ] && cp $f $dst/detected-by-$p-$(basename $f | sed 's/.*seed0-//') && rm -f $f; done
  git -C /verif checkout -- evidence/$p.json 2>/dev/null
done
git -C $wt checkout -- . ; git -C $wt status --short | head -3
echo "demo_changed_rc=$rc1 demo_unchanged_rc=$rc0" > $dst/confirm.txt
git -C /verif checkout -- $(git -C /verif ls-files | grep '/Gen/') 2>/dev/null
