#!/usr/bin/env python3
"""Translator for property C20: Rust source -> lean/XvcConfig/XvcConfig/Gen/*.lean

A deliberately dumb, anchored text extractor (DESIGN.md 2.2).  It reads

  config/src/lib.rs          XvcConfig::new: the order in which XvcConfigOptionSource values are applied and the
                             `if p.include_*` / `if let Some(..) = p.*` guards that enclose every application
  config/src/config_params.rs the field list of XvcConfigParams
  lib/src/cli/mod.rs         get_xvc_config_params: which --no-*-config switch feeds which include flag (and its polarity)
  core/src/types/xvcroot.rs  XvcRootInner::new: project/local path always `Some(..)`, every other field passed through
  core/src/lib.rs            default_project_config: keys and TOML types of the default configuration

and writes Gen/ConfigOrder.lean and Gen/ConfigDefaults.lean (only when the content changes).  Whenever an anchor is
missing or a construct has an unexpected shape it raises ExtractError: that is a broken tie, reported by lib/c20.py.
"""
import json, os, re, sys, tomllib

SRC = {'Default': 'defaults', 'System': 'system', 'Global': 'user', 'Project': 'project', 'Local': 'localp',
       'Environment': 'env', 'CommandLine': 'cli'}
FLAG_FIELD = {'include_system_config': 'system', 'include_user_config': 'user', 'include_project_config': 'project',
              'include_local_config': 'localp', 'include_environment_config': 'env'}
OPT_FIELD = {'project_config_path': 'project', 'local_config_path': 'localp', 'command_line_config': 'cli'}
SWITCH = {'no_system_config': 'system', 'no_user_config': 'user', 'no_project_config': 'project',
          'no_local_config': 'localp', 'no_env_config': 'env'}


class ExtractError(Exception):
    pass


def strip_comments(src):
    """blank out // comments (string literals in the regions we read contain no //)"""
    return re.sub(r'//[^\n]*', lambda m: ' ' * len(m.group(0)), src)


def fn_body(src, anchor_re, what):
    """(body text, first line, last line) of the brace-matched block following the anchor"""
    m = re.search(anchor_re, src)
    if not m:
        raise ExtractError(f'anchor not found: {what}')
    i = src.index('{', m.end() - 1)
    depth, j = 0, i
    while j < len(src):
        if src[j] == '{':
            depth += 1
        elif src[j] == '}':
            depth -= 1
            if depth == 0:
                return src[i:j + 1], src.count('\n', 0, i) + 1, src.count('\n', 0, j) + 1
        j += 1
    raise ExtractError(f'unbalanced braces after {what}')


def extract_order(repo):
    path = os.path.join(repo, 'config/src/lib.rs')
    src = strip_comments(open(path).read())
    body, l0, l1 = fn_body(src, r'pub fn new\(p: XvcConfigParams\)\s*->\s*Result<XvcConfig>\s*\{', 'XvcConfig::new')
    m = re.search(r'let mut config\s*=\s*XvcConfig::default_conf\(&p\);', body)
    if not m:
        raise ExtractError('XvcConfig::new does not start from XvcConfig::default_conf(&p)')
    apps = [('defaults', [], l0 + body.count('\n', 0, m.start()))]
    first_default = m.start()
    # walk the body keeping a stack of block headers
    stack = []          # header text of every open `{`
    header_start = 1
    i = 1
    pat = re.compile(r'XvcConfigOptionSource::(\w+)')
    while i < len(body) - 1:
        c = body[i]
        if c == '{':
            stack.append(' '.join(body[header_start:i].split()))
            header_start = i + 1
        elif c == '}':
            if not stack:
                raise ExtractError('brace underflow in XvcConfig::new')
            stack.pop()
            header_start = i + 1
        elif c == ';':
            header_start = i + 1
        else:
            m = pat.match(body, i)
            if m:
                name = m.group(1)
                line = l0 + body.count('\n', 0, i)
                if name == 'Runtime':
                    if 'config.current_dir' not in ' '.join(stack) and 'config.current_dir' not in body[max(0, i - 200):i]:
                        raise ExtractError(f'line {line}: Runtime source used for something else than current_dir')
                elif name not in SRC:
                    raise ExtractError(f'line {line}: unknown XvcConfigOptionSource::{name}')
                else:
                    if i < first_default:
                        raise ExtractError(f'line {line}: source {name} applied before the defaults')
                    guards = []
                    for h in stack:
                        if not re.search(r'\bp\s*\.', h):
                            continue
                        g = parse_guard(h, line)
                        guards += g
                    apps.append((SRC[name], guards, line))
                i = m.end()
                continue
        i += 1
    # the update closure must pass its `source` argument through to update_from_file
    if not re.search(r'let mut update\s*=\s*\|source,\s*file[^|]*\|', body) or \
            not re.search(r'config\.update_from_file\(config_file,\s*source\)', body):
        raise ExtractError('the `update` closure of XvcConfig::new does not have the expected shape (source passed through to update_from_file)')
    if body.count('update_from_hash_map(') != 2:
        raise ExtractError('expected exactly two update_from_hash_map calls (environment, command line) in XvcConfig::new')
    return {'file': 'config/src/lib.rs', 'lines': [l0, l1], 'applications': [{'src': s, 'guards': g, 'line': ln} for s, g, ln in apps]}


def parse_guard(header, line):
    """`if p.include_x_config` -> flag; `if !p.include_x_config` -> nflag; `if let Some(v) = p.field` -> present.
    Conjunctions with && are split."""
    h = header.strip()
    m = re.match(r'^(?:\}\s*else\s+)?if\s+(.*)$', h)
    if not m:
        raise ExtractError(f'line {line}: a block mentioning `p.` that is not an `if`: {h!r}')
    out = []
    for part in m.group(1).split('&&'):
        part = part.strip()
        mm = re.match(r'^(!?)\s*p\s*\.\s*(\w+)$', part)
        if mm and mm.group(2) in FLAG_FIELD:
            out.append(['nflag' if mm.group(1) else 'flag', FLAG_FIELD[mm.group(2)]])
            continue
        mm = re.match(r'^let\s+Some\(\s*\w+\s*\)\s*=\s*p\s*\.\s*(\w+)$', part)
        if mm and mm.group(1) in OPT_FIELD:
            out.append(['present', OPT_FIELD[mm.group(1)]])
            continue
        raise ExtractError(f'line {line}: unrecognised guard {part!r}')
    return out


def extract_params_fields(repo):
    src = strip_comments(open(os.path.join(repo, 'config/src/config_params.rs')).read())
    body, l0, l1 = fn_body(src, r'pub struct XvcConfigParams\s*\{', 'struct XvcConfigParams')
    fields = re.findall(r'pub\s+(\w+)\s*:', body)
    for need in ('default_configuration', 'current_dir', 'include_system_config', 'include_user_config',
                 'project_config_path', 'local_config_path', 'include_environment_config', 'command_line_config'):
        if need not in fields:
            raise ExtractError(f'XvcConfigParams has no field {need}')
    for f in fields:
        if f.startswith('include_') and f not in FLAG_FIELD:
            raise ExtractError(f'XvcConfigParams has an include flag the model does not know: {f}')
    return {'file': 'config/src/config_params.rs', 'lines': [l0, l1], 'fields': fields}


def struct_literal_fields(body, what):
    m = re.search(r'XvcConfigParams\s*\{', body)
    if not m:
        raise ExtractError(f'{what}: no XvcConfigParams literal')
    lit, _, _ = fn_body(body, r'XvcConfigParams\s*\{', what + ' literal')
    inner = lit[1:-1]
    # split on top-level commas
    parts, depth, cur = [], 0, ''
    for ch in inner:
        if ch in '([{':
            depth += 1
        elif ch in ')]}':
            depth -= 1
        if ch == ',' and depth == 0:
            parts.append(cur); cur = ''
        else:
            cur += ch
    if cur.strip():
        parts.append(cur)
    out = {}
    for p in parts:
        p = ' '.join(p.split())
        if not p:
            continue
        if p.startswith('..'):
            out['..'] = p[2:].strip()
            continue
        mm = re.match(r'^(\w+)\s*:\s*(.*)$', p)
        if mm:
            out[mm.group(1)] = mm.group(2)
        elif re.match(r'^\w+$', p):
            out[p] = p          # shorthand
        else:
            raise ExtractError(f'{what}: cannot read struct literal element {p!r}')
    return out


def extract_wiring(repo, fields):
    path = os.path.join(repo, 'lib/src/cli/mod.rs')
    src = strip_comments(open(path).read())
    body, l0, l1 = fn_body(src, r'pub fn get_xvc_config_params\(cli_opts: &XvcCLI\)\s*->\s*XvcConfigParams\s*\{', 'get_xvc_config_params')
    lit = struct_literal_fields(body, 'get_xvc_config_params')
    wiring = []
    for f, s in FLAG_FIELD.items():
        if f not in fields:
            continue
        e = lit.get(f)
        if e is None:
            raise ExtractError(f'get_xvc_config_params does not set {f}')
        mm = re.match(r'^(!?)\s*cli_opts\s*\.\s*(\w+)$', e)
        if mm and SWITCH.get(mm.group(2)) == s:
            wiring.append([s, bool(mm.group(1))])
        elif e == 'true':
            pass        # flag not wired to a switch
        else:
            raise ExtractError(f'get_xvc_config_params: unexpected expression for {f}: {e!r}')
    for f in ('project_config_path', 'local_config_path'):
        if lit.get(f) != 'None':
            raise ExtractError(f'get_xvc_config_params: {f} is expected to be None (set later by XvcRootInner::new), found {lit.get(f)!r}')
    if not re.match(r'^Some\(\s*cli_opts\.consolidate_config_options\(\)\s*\)$', lit.get('command_line_config', '')):
        raise ExtractError('get_xvc_config_params: command_line_config is not Some(cli_opts.consolidate_config_options())')
    # the switches must exist in the XvcCLI struct
    for sw in SWITCH:
        if not re.search(r'pub\s+' + sw + r'\s*:\s*bool', src):
            raise ExtractError(f'XvcCLI has no switch field {sw}')
    cons, c0, c1 = fn_body(src, r'pub fn consolidate_config_options\(&self\)\s*->\s*Vec<String>\s*\{', 'consolidate_config_options')
    always = re.findall(r'output\.push\(\s*format!\(\s*"([\w\.\-]+)\s*=\s*\{\}"', cons)
    return {'file': 'lib/src/cli/mod.rs', 'lines': [l0, l1], 'wiring': wiring, 'cli_always_sets': always}


def extract_root(repo, fields):
    path = os.path.join(repo, 'core/src/types/xvcroot.rs')
    src = strip_comments(open(path).read())
    body, l0, l1 = fn_body(src, r'pub fn new\(absolute_path: AbsolutePath, config_opts: XvcConfigParams\)\s*->\s*Result<Self>\s*\{', 'XvcRootInner::new')
    lit = struct_literal_fields(body, 'XvcRootInner::new')
    for f, expect in (('project_config_path', r'^Some\(\s*project_config_path(\.clone\(\))?\s*\)$'),
                      ('local_config_path', r'^Some\(\s*local_config_path(\.clone\(\))?\s*\)$')):
        if not re.match(expect, lit.get(f, '')):
            raise ExtractError(f'XvcRootInner::new: {f} is not unconditionally Some(..): {lit.get(f)!r}')
    for f in fields:
        if f in ('project_config_path', 'local_config_path'):
            continue
        if lit.get(f) != f'config_opts.{f}' and lit.get('..') != 'config_opts':
            raise ExtractError(f'XvcRootInner::new does not pass {f} through: {lit.get(f)!r}')
    if not re.search(r'let project_config_path\s*=\s*xvc_dir\.join\(XvcRootInner::PROJECT_CONFIG_PATH\)', body) or \
            not re.search(r'let local_config_path\s*=\s*xvc_dir\.join\(XvcRootInner::LOCAL_CONFIG_PATH\)', body):
        raise ExtractError('XvcRootInner::new: project/local config paths are not <xvc_dir>/PROJECT_CONFIG_PATH, LOCAL_CONFIG_PATH')
    names = {}
    for const in ('LOCAL_CONFIG_PATH', 'PROJECT_CONFIG_PATH'):
        mm = re.search(r'const\s+' + const + r'\s*:\s*&\'static str\s*=\s*"([^"]+)"', src)
        if not mm:
            raise ExtractError(f'constant {const} not found')
        names[const] = mm.group(1)
    return {'file': 'core/src/types/xvcroot.rs', 'lines': [l0, l1], 'project_file': names['PROJECT_CONFIG_PATH'], 'local_file': names['LOCAL_CONFIG_PATH']}


def extract_defaults(repo):
    path = os.path.join(repo, 'core/src/lib.rs')
    src = open(path).read()
    m = re.search(r'pub fn default_project_config\(use_git: bool\)\s*->\s*String\s*\{', src)
    if not m:
        raise ExtractError('anchor not found: default_project_config')
    mm = re.compile(r'format!\(\s*r##"(.*?)"##\s*,(.*?)\)\s*\}', re.S).search(src, m.end())
    if not mm:
        raise ExtractError('default_project_config: format!(r##"…"##, …) not found')
    template, args = mm.group(1), mm.group(2)
    l0 = src.count('\n', 0, mm.start()) + 1
    l1 = src.count('\n', 0, mm.end()) + 1
    argmap = dict((a.strip(), b.strip()) for a, b in re.findall(r'(\w+)\s*=\s*([^,]+)', args))
    subst = {}
    for name, expr in argmap.items():
        if name == 'guid':
            subst[name] = 'GUID'                 # placed inside quotes by the template
        elif expr in ('use_git', '!use_git'):
            subst[name] = 'true' if expr == 'use_git' else 'false'     # value for use_git = true; the TYPE is what matters
        else:
            raise ExtractError(f'default_project_config: unknown format argument {name} = {expr}')
    text = template.replace('{{', '\x00').replace('}}', '\x01')
    for name, val in subst.items():
        text = text.replace('{' + name + '}', val)
    if re.search(r'\{\w*\}', text):
        raise ExtractError('default_project_config: unsubstituted placeholder')
    text = text.replace('\x00', '{').replace('\x01', '}')
    try:
        doc = tomllib.loads(text)
    except tomllib.TOMLDecodeError as e:
        raise ExtractError(f'default configuration is not valid TOML: {e}')
    return {'file': 'core/src/lib.rs', 'lines': [l0, l1], 'doc': doc, 'use_git_dependent': sorted(k for k, e in argmap.items() if 'use_git' in e)}


def flatten(doc, pfx=''):
    out = []
    for k, v in doc.items():
        key = k if not pfx else pfx + '.' + k
        if isinstance(v, dict):
            out += flatten(v, key)
        else:
            out.append((key, v))
    return out


def ty_of(v):
    if isinstance(v, bool): return 'bool'
    if isinstance(v, int): return 'int'
    if isinstance(v, float): return 'float'
    if isinstance(v, str): return 'str'
    raise ExtractError(f'default configuration holds a value outside str/bool/int/float: {v!r}')


def lean_str(s):
    out = '"'
    for ch in s:
        if ch == '"': out += '\\"'
        elif ch == '\\': out += '\\\\'
        elif ch == '\n': out += '\\n'
        elif ch == '\t': out += '\\t'
        elif ord(ch) < 32 or ord(ch) > 126: out += '\\u{%x}' % ord(ch)
        else: out += ch
    return out + '"'


def lean_val(v):
    t = ty_of(v)
    if t == 'bool': return f'.bool {"true" if v else "false"}'
    if t == 'int': return f'.int ({v})'
    if t == 'float': return f'.float {lean_str(repr(v))}'
    return f'.str {lean_str(v)}'


def lean_toml(doc, ind):
    items = []
    for k, v in doc.items():
        if isinstance(v, dict):
            items.append(f'({lean_str(k)}, {lean_toml(v, ind + 2)})')
        else:
            items.append(f'({lean_str(k)}, .leaf ({lean_val(v)}))')
    pad = ' ' * ind
    if not items:
        return '.table []'
    return '.table [\n' + pad + (',\n' + pad).join(items) + ']'


def lean_guard(g):
    return f'.{g[0]} .{g[1]}'


def render_order(ex):
    o, w = ex['order'], ex['wiring']
    lines = ['import XvcConfig.Model',
             '/-! GENERATED by /verif/translator/extract_config.py — do not edit.',
             f'  `applications`: {o["file"]} lines {o["lines"][0]}–{o["lines"][1]} (`XvcConfig::new`), one entry per',
             '  `XvcConfigOptionSource` application in textual (= execution) order with the `if p.…` guards around it.',
             f'  `wiring`: {w["file"]} lines {w["lines"][0]}–{w["lines"][1]} (`get_xvc_config_params`): the sources whose',
             '  include flag is computed from the `--no-<source>-config` switch, `true` = negated (`!cli_opts.no_…`). -/',
             'namespace Cfg.Gen', '',
             'def applications : Table := [']
    ents = []
    for a in o['applications']:
        ents.append(f'  (.{a["src"]}, [{", ".join(lean_guard(g) for g in a["guards"])}])   -- line {a["line"]}')
    # commas: put them before the comment
    ents = [e.replace(')   --', '),   --', 1) if i < len(ents) - 1 else e for i, e in enumerate(ents)]
    lines += ents
    lines += ['  ]', '',
              '/-- the order in which `XvcConfig::new` applies the sources -/',
              'def order : List Src := applications.map (·.1)', '',
              'def wiring : List (Src × Bool) := [' + ', '.join(f'(.{s}, {"true" if n else "false"})' for s, n in w['wiring']) + ']', '',
              '/-- the sources a `--no-*-config` switch of the command line reaches -/',
              'def wired : List Src := wiring.map (·.1)', '',
              'end Cfg.Gen', '']
    return '\n'.join(lines)


def render_defaults(ex):
    d = ex['defaults']
    flat = flatten(d['doc'])
    lines = ['import XvcConfig.Model',
             '/-! GENERATED by /verif/translator/extract_config.py — do not edit.',
             f'  The TOML template of `default_project_config` ({d["file"]} lines {d["lines"][0]}–{d["lines"][1]}), with',
             '  `{guid}` replaced by the text GUID and the booleans that depend on `use_git` instantiated for `use_git = true`',
             '  (only their type matters). -/',
             'namespace Cfg.Gen', '',
             'def defaultToml : Toml :=',
             '  ' + lean_toml(d['doc'], 4), '',
             '/-- flattened keys of the default configuration with their TOML types -/',
             'def defaultKeys : List (Key × Ty) := [']
    lines += [',\n'.join(f'  ({lean_str(k)}, .{ty_of(v)})' for k, v in flat)]
    lines += ['  ]', '', 'end Cfg.Gen', '']
    return '\n'.join(lines)


def extract(repo):
    fields = extract_params_fields(repo)
    ex = {'repo': repo, 'params': fields, 'order': extract_order(repo), 'wiring': extract_wiring(repo, fields['fields']),
          'root': extract_root(repo, fields['fields']), 'defaults': extract_defaults(repo)}
    ex['default_keys'] = [[k, ty_of(v)] for k, v in flatten(ex['defaults']['doc'])]
    return ex


def write_if_changed(path, text):
    try:
        if open(path).read() == text:
            return False
    except OSError:
        pass
    tmp = path + f'.tmp{os.getpid()}'
    with open(tmp, 'w') as f:
        f.write(text)
    os.replace(tmp, path)
    return True


def generate(repo, gen_dir):
    ex = extract(repo)
    os.makedirs(gen_dir, exist_ok=True)
    changed = []
    for name, text in (('ConfigOrder.lean', render_order(ex)), ('ConfigDefaults.lean', render_defaults(ex))):
        if write_if_changed(os.path.join(gen_dir, name), text):
            changed.append(name)
    ex['changed'] = changed
    return ex


if __name__ == '__main__':
    here = os.path.dirname(os.path.dirname(os.path.abspath(__file__)))
    repo = sys.argv[1] if len(sys.argv) > 1 else os.environ.get('VERIF_REPO', '/repo')
    ex = generate(repo, os.path.join(here, 'lean', 'XvcConfig', 'XvcConfig', 'Gen'))
    json.dump(ex, sys.stdout, indent=1, default=str)
    print()
